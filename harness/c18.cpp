// c18.cpp - C18: distinct solver objects can be used concurrently from different threads.
//
// case  = T (2..16) thread programs. A program = its own LP (planted generator, small) + parameter combination +
//         mode (float | exact | exact with precision boosting | pure precision boosting) + a list of operations
//         (modify / solve / query / print / settings / file write+read / copy) + a start stagger expressed as a
//         number of warm-up solves per repetition.
// run   = in a forked child process (so that every case sees a fresh process: lazily initialised library state is
//         "first use" in every case and a crash or sanitizer abort is attributed to the right case)
//           (1) every program alone, one after the other, recording a digest (labelled list of observations:
//               statuses, iteration counts, bases, solution vectors bit for bit / rationals as strings, texts),
//           (2) all T programs at the same time in T threads released by one spin barrier, R times,
//           (3) every program alone once more.
//         In "first" cases (1) is skipped, so the very first SoPlex objects of the process are constructed
//         concurrently, and the reference is (3) run twice.
// oracle = (a) digest(thread t, repetition r) == digest(program t alone), compared item by item, bitwise;
//          (b) under the tsan flavour: the ThreadSanitizer runtime wrote no report (stderr of the child is captured
//              in a memfd and scanned; TSan's exit code is checked as well);
//          (c) the child neither crashed nor was killed by a signal.
//          The two solo runs must agree with each other (otherwise "sequential run not reproducible").
// no wall clock in the oracle: a TIMELIMIT / parent watchdog only turns a case into "inconclusive" (counted).
//
// options: --x maxthreads=N (default: thorough 16; quick 8, 16 in 15% of the cases)  --x reps=R (default 3)  --x fork=0 (run in-process)  --x maxdim=N
//          --x casetimeout=S (default 600)
#include "spx.hpp"
#include "gen_lp.hpp"

#include <atomic>
#include <thread>
#include <dirent.h>
#include <fcntl.h>
#include <signal.h>
#include <sys/mman.h>
#include <sys/syscall.h>
#include <sys/wait.h>
#include <mpfr.h>

using namespace vf;

#if defined(__has_feature)
#if __has_feature(thread_sanitizer)
#define C18_TSAN 1
#endif
#endif
#if defined(__SANITIZE_THREAD__)
#define C18_TSAN 1
#endif

#ifdef C18_TSAN
// defaults; TSAN_OPTIONS of the driver (halt_on_error=0:exitcode=66) are merged on top
extern "C" const char* __tsan_default_options()
{
   return "history_size=5:exitcode=66:halt_on_error=0:report_thread_leaks=0";
}
static const bool isTsan = true;
#else
static const bool isTsan = false;
#endif

#ifdef SOPLEX_WITH_MPFR
static const bool hasBoosting = true;
#else
static const bool hasBoosting = false;
#endif

enum Mode { M_FLOAT = 0, M_EXACT = 1, M_EXACT_BOOST = 2, M_PURE_BOOST = 3 };
static const char* modeName(int m)
{
   static const char* n[] = {"float", "exact", "exact+boosting", "pure-boosting"};
   return n[m & 3];
}

// ------------------------------------------------------------------ program model
struct Prog
{
   int mode = 0, load = 0, verb = 0, timer = 1;
   std::vector<int> warm;          // warm-up solves per repetition (start stagger)
   LP lp;
   std::vector<Rec> params;        // pint / pbool / pseed
   std::vector<Rec> ops;
};

typedef std::vector<std::pair<std::string, std::string>> Digest;

struct Info     // per run of one program, written by one thread only
{
   int solves = 0, solvesWithIter = 0, boosts = 0, refinements = 0, ioReads = 0;
   bool tainted = false;           // a wall-clock limit was hit: not comparable
   std::map<std::string, long> cnt;
};

static std::string hexd(double d)
{
   uint64_t u;
   memcpy(&u, &d, 8);
   char b[24];
   snprintf(b, sizeof b, "%016llx", (unsigned long long) u);
   return b;
}
static std::string vecd(const soplex::VectorReal& v)
{
   std::string s;
   for(int i = 0; i < v.dim(); i++) s += hexd(v[i]) + ",";
   return s;
}
static std::string vecq(const soplex::VectorRational& v)
{
   std::string s;
   for(int i = 0; i < v.dim(); i++) s += qr(v[i]).get_str() + ",";
   return s;
}
static std::string hashText(const std::string& t)
{
   char b[48];
   snprintf(b, sizeof b, "len=%zu fnv=%016llx", t.size(), (unsigned long long) fnv(t));
   return b;
}
// statistics text without anything that depends on a clock
static std::string stripTimes(const std::string& t)
{
   std::istringstream is(t);
   std::string line, out;
   bool block = false;
   while(std::getline(is, line))
   {
      if(line.compare(0, 10, "Total time") == 0) block = true;
      else if(line.compare(0, 11, "Refinements") == 0) block = false;
      if(block) continue;
      if(line.find("ime") != std::string::npos) continue;
      out += line + "\n";
   }
   return out;
}
// the clock-free lines of the solver log that tell the working precision of a boosted solve
static std::string precisionLines(const std::string& t)
{
   std::istringstream is(t);
   std::string line, out;
   while(std::getline(is, line))
      if(line.compare(0, 17, "Current precision") == 0 || line.compare(0, 17, "Boosted iteration") == 0
            || line.compare(0, 14, "Maximum number") == 0)
         out += line + ";";
   return out;
}

static const char* const settingStrings[] =
{
   "int:pricer = 3", "int:factor_update_max = 7", "bool:rowboundflips = true", "real:feastol = 1e-7",
   "int:displayfreq = 10", "uint:random_seed = 7", "bool:ensureray = false", "real:opttol = 1e-8",
   "int:nosuchparam = 1", "real:fpfeastol = 1e-10"
};

static std::string workDir;        // scratch directory of the current case (files of the io operation)

// A solver object constructed by placement new in a block pre-filled with a byte pattern. The pattern differs between
// the first solo run (0x00), the concurrent runs (0xA5) and the second solo run (0x5A): behaviour that depends on a
// member no constructor initialised shows up as a digest difference (or crash) deterministically instead of
// depending on what the allocator happens to hand out.
struct Placed
{
   void* mem = nullptr;
   soplex::SoPlex* p = nullptr;
   explicit Placed(int fill)
   {
      size_t al = alignof(soplex::SoPlex) < 16 ? 16 : alignof(soplex::SoPlex);
      size_t sz = (sizeof(soplex::SoPlex) + al - 1) / al * al;
      mem = aligned_alloc(al, sz);
      memset(mem, fill, sz);
   }
   soplex::SoPlex& make()
   {
      p = new(mem) soplex::SoPlex();
      return *p;
   }
   soplex::SoPlex& copy(const soplex::SoPlex& o)
   {
      p = new(mem) soplex::SoPlex(o);
      return *p;
   }
   ~Placed()
   {
      if(p) p->~SoPlexBase();
      free(mem);
   }
   Placed(const Placed&) = delete;
   Placed& operator=(const Placed&) = delete;
};

static void redirect(soplex::SoPlex& sp, std::ostream& os)
{
   for(int v = soplex::SPxOut::ERROR; v <= soplex::SPxOut::INFO3; v++) sp.spxout.setStream((soplex::SPxOut::Verbosity) v, os);
}

static void setupMode(soplex::SoPlex& sp, int mode)
{
   using soplex::SoPlex;
   if(mode == M_FLOAT)
   {
      sp.setIntParam(SoPlex::SOLVEMODE, SoPlex::SOLVEMODE_REAL);
      sp.setIntParam(SoPlex::ITERLIMIT, 20000);
   }
   else
   {
      sp.setIntParam(SoPlex::SOLVEMODE, SoPlex::SOLVEMODE_RATIONAL);
      sp.setIntParam(SoPlex::CHECKMODE, SoPlex::CHECKMODE_RATIONAL);
      sp.setIntParam(SoPlex::READMODE, SoPlex::READMODE_RATIONAL);
      sp.setRealParam(SoPlex::FEASTOL, 0.0);
      sp.setRealParam(SoPlex::OPTTOL, 0.0);
      sp.setIntParam(SoPlex::SYNCMODE, SoPlex::SYNCMODE_AUTO);
      sp.setIntParam(SoPlex::ITERLIMIT, 3000);
      sp.setIntParam(SoPlex::REFLIMIT, 30);
      if(mode >= M_EXACT_BOOST) sp.setBoolParam(SoPlex::PRECISION_BOOSTING, true);
      else sp.setBoolParam(SoPlex::PRECISION_BOOSTING, false);
      if(mode == M_PURE_BOOST) sp.setBoolParam(SoPlex::ITERATIVE_REFINEMENT, false);
   }
   // wall-clock watchdog only: a run that hits it is "tainted" and never compared
   sp.setRealParam(SoPlex::TIMELIMIT, 120.0);
}

static void observeSolution(soplex::SoPlex& sp, const Prog& p, Digest& d, const std::string& L)
{
   using namespace soplex;
   int m = sp.numRows(), n = sp.numCols();
   d.push_back({L + "status", statusName(sp.status())});
   d.push_back({L + "dims", std::to_string(m) + "x" + std::to_string(n) + " nnz " + std::to_string(sp.numNonzeros())});
   d.push_back({L + "iterations", std::to_string(sp.numIterations())});
   d.push_back({L + "refinements", std::to_string(sp.numRefinements())});
   d.push_back({L + "precboosts", std::to_string(sp.numPrecisionBoosts())});
   d.push_back({L + "has", std::string(sp.hasPrimal() ? "P" : "-") + (sp.hasDual() ? "D" : "-") + (sp.hasBasis() ? "B" : "-") +
                (sp.hasPrimalRay() ? "R" : "-") + (sp.hasDualFarkas() ? "F" : "-") + (sp.isPrimalFeasible() ? "p" : "-") + (sp.isDualFeasible() ? "d" : "-")});
   d.push_back({L + "objreal", hexd(sp.objValueReal())});
   if(sp.hasPrimal())
   {
      VectorReal x(n), s(m);
      bool a = sp.getPrimal(x), b = sp.getSlacksReal(s);
      d.push_back({L + "primal", (a ? "ok " : "no ") + vecd(x)});
      d.push_back({L + "slacks", (b ? "ok " : "no ") + vecd(s)});
   }
   if(sp.hasDual())
   {
      VectorReal y(m), r(n);
      bool a = sp.getDual(y), b = sp.getRedCost(r);
      d.push_back({L + "dual", (a ? "ok " : "no ") + vecd(y)});
      d.push_back({L + "redcost", (b ? "ok " : "no ") + vecd(r)});
   }
   if(sp.hasPrimalRay())
   {
      VectorReal r(n);
      bool a = sp.getPrimalRay(r);
      d.push_back({L + "ray", (a ? "ok " : "no ") + vecd(r)});
   }
   if(sp.hasDualFarkas())
   {
      VectorReal f(m);
      bool a = sp.getDualFarkas(f);
      d.push_back({L + "farkas", (a ? "ok " : "no ") + vecd(f)});
   }
   if(sp.hasBasis())
   {
      std::vector<Solver::VarStatus> rs(m + 1), cs(n + 1);
      sp.getBasis(rs.data(), cs.data());
      std::string s;
      for(int i = 0; i < m; i++) s += (char)('0' + (int) rs[i]);
      s += "|";
      for(int j = 0; j < n; j++) s += (char)('0' + (int) cs[j]);
      d.push_back({L + "basis", s});
   }
   if(p.mode != M_FLOAT && sp.intParam(SoPlex::SOLVEMODE) == SoPlex::SOLVEMODE_RATIONAL)
   {
      d.push_back({L + "objrational", qr(sp.objValueRational()).get_str()});
      if(sp.hasPrimal())
      {
         VectorRational x(n), s(m);
         bool a = sp.getPrimalRational(x), b = sp.getSlacksRational(s);
         d.push_back({L + "primalQ", (a ? "ok " : "no ") + vecq(x)});
         d.push_back({L + "slacksQ", (b ? "ok " : "no ") + vecq(s)});
      }
      if(sp.hasDual())
      {
         VectorRational y(m), r(n);
         bool a = sp.getDualRational(y), b = sp.getRedCostRational(r);
         d.push_back({L + "dualQ", (a ? "ok " : "no ") + vecq(y)});
         d.push_back({L + "redcostQ", (b ? "ok " : "no ") + vecq(r)});
      }
   }
}

static void observeLP(soplex::SoPlex& sp, const Prog& p, Digest& d, const std::string& L)
{
   using namespace soplex;
   int m = sp.numRows(), n = sp.numCols();
   std::string s;
   if(p.mode == M_FLOAT)
   {
      VectorReal lhs(m), rhs(m), lo(n), up(n), obj(n);
      sp.getLhsReal(lhs);
      sp.getRhsReal(rhs);
      sp.getLowerReal(lo);
      sp.getUpperReal(up);
      sp.getObjReal(obj);
      s = vecd(lhs) + "|" + vecd(rhs) + "|" + vecd(lo) + "|" + vecd(up) + "|" + vecd(obj) + "|";
      for(int i = 0; i < m; i++)
      {
         DSVectorReal row;
         sp.getRowVectorReal(i, row);
         for(int k = 0; k < row.size(); k++) s += std::to_string(row.index(k)) + ":" + hexd(row.value(k)) + ",";
         s += ";";
      }
   }
   else
   {
      for(int i = 0; i < m; i++)
      {
         s += qr(sp.lhsRational(i)).get_str() + "<" + qr(sp.rhsRational(i)).get_str() + ":";
         const SVectorRational& row = sp.rowVectorRational(i);
         for(int k = 0; k < row.size(); k++) s += std::to_string(row.index(k)) + ":" + qr(row.value(k)).get_str() + ",";
         s += ";";
      }
      for(int j = 0; j < n; j++)
         s += qr(sp.lowerRational(j)).get_str() + "<" + qr(sp.upperRational(j)).get_str() + " c " + qr(sp.objRational(j)).get_str() + ";";
   }
   d.push_back({L + "lp", std::to_string(m) + "x" + std::to_string(n) + " " + hashText(s)});
}

// one complete life of a solver object: create, fill, operate, destroy. Touches nothing shared with other threads
// except the library under test (and const program data).
static void runProg(const Prog& p, int tid, int fill, Digest& d, Info& inf)
{
   using namespace soplex;
   std::ostringstream log;
   try
   {
      Placed spMem(fill);
      SoPlex& sp = spMem.make();
      redirect(sp, log);
      sp.setIntParam(SoPlex::VERBOSITY, p.verb);
      setupMode(sp, p.mode);
      sp.setIntParam(SoPlex::TIMER, p.timer);
      for(auto& r : p.params)
      {
         bool ok = true;
         if(r.tag == "pint") ok = sp.setIntParam((SoPlex::IntParam) r.i(0), (int) r.i(1));
         else if(r.tag == "pbool") ok = sp.setBoolParam((SoPlex::BoolParam) r.i(0), r.i(1) != 0);
         else if(r.tag == "pseed") sp.setRandomSeed((unsigned) r.i(0));
         if(!ok) d.push_back({"param", "rejected " + r.tag + " " + r.s(0) + " " + r.s(1)});
      }
      if(p.mode == M_FLOAT) loadReal(sp, p.lp, p.load);
      else
      {
         loadRational(sp, p.lp, p.load);
         sp.setRealParam(SoPlex::OBJ_OFFSET, dq(p.lp.offset));
      }
      d.push_back({"loaded", std::to_string(sp.numRows()) + "x" + std::to_string(sp.numCols())});
      int serial = 0;
      for(size_t k = 0; k < p.ops.size(); k++)
      {
         const Rec& o = p.ops[k];
         const std::string& kind = o.s(0);
         std::string L = std::to_string(k) + ":" + kind + ".";
         int m = sp.numRows(), n = sp.numCols();
         inf.cnt["op." + kind]++;
         if(kind == "solve")
         {
            size_t mark = log.str().size();
            Status st;
            try
            {
               st = sp.optimize();
            }
            catch(const SPxException& x)
            {
               d.push_back({L + "exception", x.what()});
               st = sp.status();
            }
            inf.solves++;
            if(sp.numIterations() > 0) inf.solvesWithIter++;
            if(sp.numPrecisionBoosts() > 0) inf.boosts++;
            if(sp.numRefinements() > 0) inf.refinements++;
            if(st == Solver::ABORT_TIME) inf.tainted = true;
            inf.cnt[std::string("status.") + modeName(p.mode) + "." + statusName(st)]++;
            observeSolution(sp, p, d, L);
            if(p.verb >= 3 && p.mode >= M_EXACT_BOOST)
               d.push_back({L + "precisions", precisionLines(log.str().substr(mark))});
            (void) sp.solveTime();
         }
         else if(kind == "bnd")
         {
            if(n == 0) continue;
            int j = (int)(o.i(1) % n);
            if(p.mode == M_FLOAT) sp.changeBoundsReal(j, D(o.q(2)), D(o.q(3)));
            else sp.changeBoundsRational(j, rq(o.q(2)), rq(o.q(3)));
         }
         else if(kind == "obj")
         {
            if(n == 0) continue;
            int j = (int)(o.i(1) % n);
            if(p.mode == M_FLOAT) sp.changeObjReal(j, D(o.q(2)));
            else sp.changeObjRational(j, rq(o.q(2)));
         }
         else if(kind == "rng")
         {
            if(m == 0) continue;
            int i = (int)(o.i(1) % m);
            if(p.mode == M_FLOAT) sp.changeRangeReal(i, D(o.q(2)), D(o.q(3)));
            else sp.changeRangeRational(i, rq(o.q(2)), rq(o.q(3)));
         }
         else if(kind == "addrow")
         {
            // addrow lhs rhs (j v)*
            if(p.mode == M_FLOAT)
            {
               DSVectorReal v(n + 1);
               std::set<int> used;
               for(size_t a = 3; a + 1 < o.n() && n > 0; a += 2)
               {
                  int j = (int)(o.i(a) % n);
                  if(used.insert(j).second) v.add(j, D(o.q(a + 1)));
               }
               sp.addRowReal(LPRowReal(D(o.q(1)), v, D(o.q(2))));
            }
            else
            {
               DSVectorRational v(n + 1);
               std::set<int> used;
               for(size_t a = 3; a + 1 < o.n() && n > 0; a += 2)
               {
                  int j = (int)(o.i(a) % n);
                  if(used.insert(j).second) v.add(j, rq(o.q(a + 1)));
               }
               sp.addRowRational(LPRowRational(rq(o.q(1)), v, rq(o.q(2))));
            }
         }
         else if(kind == "addcol")
         {
            // addcol lo up obj (i v)*
            if(p.mode == M_FLOAT)
            {
               DSVectorReal v(m + 1);
               std::set<int> used;
               for(size_t a = 4; a + 1 < o.n() && m > 0; a += 2)
               {
                  int i = (int)(o.i(a) % m);
                  if(used.insert(i).second) v.add(i, D(o.q(a + 1)));
               }
               sp.addColReal(LPColReal(D(o.q(3)), v, D(o.q(2)), D(o.q(1))));
            }
            else
            {
               DSVectorRational v(m + 1);
               std::set<int> used;
               for(size_t a = 4; a + 1 < o.n() && m > 0; a += 2)
               {
                  int i = (int)(o.i(a) % m);
                  if(used.insert(i).second) v.add(i, rq(o.q(a + 1)));
               }
               sp.addColRational(LPColRational(rq(o.q(3)), v, rq(o.q(2)), rq(o.q(1))));
            }
         }
         else if(kind == "delrow")
         {
            if(m <= 1) continue;
            int i = (int)(o.i(1) % m);
            if(p.mode == M_FLOAT) sp.removeRowReal(i);
            else sp.removeRowRational(i);
         }
         else if(kind == "delcol")
         {
            if(n <= 1) continue;
            int j = (int)(o.i(1) % n);
            if(p.mode == M_FLOAT) sp.removeColReal(j);
            else sp.removeColRational(j);
         }
         else if(kind == "query") observeSolution(sp, p, d, L);
         else if(kind == "qlp") observeLP(sp, p, d, L);
         else if(kind == "inf")
         {
            d.push_back({L + "infty", hexd(sp.realParam(SoPlex::INFTY)) + " " + hexd(soplex::infinity)});
         }
         else if(kind == "setinf")
         {
            double v = o.i(1) == 0 ? 1e100 : (o.i(1) == 1 ? 1e50 : 1e30);
            bool ok = sp.setRealParam(SoPlex::INFTY, v);
            d.push_back({L + "infty", std::string(ok ? "ok " : "no ") + hexd(sp.realParam(SoPlex::INFTY)) + " " + hexd(soplex::infinity)});
         }
         else if(kind == "stats")
         {
            std::ostringstream os, os2, os3;
            sp.printStatistics(os);
            sp.printShortStatistics(os2);
            sp.printStatus(os3, sp.status());
            d.push_back({L + "statistics", hashText(stripTimes(os.str()))});
            d.push_back({L + "status", os3.str()});
            (void) sp.statisticString();
         }
         else if(kind == "settings")
         {
            size_t mark = log.str().size();
            sp.printUserSettings();
            if(o.i(1)) sp.printVersion();
            d.push_back({L + "text", hashText(log.str().substr(mark))});
         }
         else if(kind == "parse")
         {
            std::string s = settingStrings[o.i(1) % (sizeof settingStrings / sizeof settingStrings[0])];
            std::vector<char> buf(s.begin(), s.end());
            buf.push_back(0);
            size_t mark = log.str().size();
            bool ok = sp.parseSettingsString(buf.data());
            d.push_back({L + "parsed", std::string(ok ? "ok " : "no ") + s});
            (void) mark;
         }
         else if(kind == "io")
         {
            // io fmt reps : write the LP to a file, read it back into fresh objects (reader + writer code paths)
            std::string ext = o.i(1) == 0 ? ".lp" : ".mps";
            std::string f1 = workDir + "/t" + std::to_string(tid) + "_" + std::to_string(serial) + "a" + ext;
            std::string f2 = workDir + "/t" + std::to_string(tid) + "_" + std::to_string(serial) + "b" + ext;
            serial++;
            bool ok = p.mode == M_FLOAT ? sp.writeFile(f1.c_str()) : sp.writeFileRational(f1.c_str());
            std::string text = readFileText(f1);
            d.push_back({L + "written", std::string(ok ? "ok " : "no ") + hashText(text)});
            int reps = (int) std::max(1L, o.i(2));
            for(int r = 0; r < reps; r++)
            {
               Placed bMem(fill);
               SoPlex& b = bMem.make();
               std::ostringstream blog;
               redirect(b, blog);
               b.setIntParam(SoPlex::VERBOSITY, SoPlex::VERBOSITY_ERROR);
               setupMode(b, p.mode);
               NameSet rn, cn;
               bool rok = b.readFile(f1.c_str(), &rn, &cn, nullptr);
               inf.ioReads++;
               std::string L2 = L + "read" + std::to_string(r) + ".";
               d.push_back({L2 + "ok", std::string(rok ? "ok " : "no ") + std::to_string(b.numRows()) + "x" + std::to_string(b.numCols()) + " nnz " + std::to_string(b.numNonzeros()) +
                            " names " + std::to_string(rn.num()) + "/" + std::to_string(cn.num())});
               if(rok)
               {
                  bool wok = p.mode == M_FLOAT ? b.writeFile(f2.c_str(), &rn, &cn) : b.writeFileRational(f2.c_str(), &rn, &cn);
                  d.push_back({L2 + "rewritten", std::string(wok ? "ok " : "no ") + hashText(readFileText(f2))});
                  if(r + 1 == reps)
                  {
                     Status st;
                     try
                     {
                        st = b.optimize();
                     }
                     catch(const SPxException& x)
                     {
                        d.push_back({L2 + "exception", x.what()});
                        st = b.status();
                     }
                     if(st == Solver::ABORT_TIME) inf.tainted = true;
                     if(b.numPrecisionBoosts() > 0) inf.boosts++;
                     d.push_back({L2 + "solve", std::string(statusName(st)) + " " + std::to_string(b.numIterations()) + " " + hexd(b.objValueReal())});
                  }
               }
            }
            unlink(f1.c_str());
            unlink(f2.c_str());
         }
         else if(kind == "basis")
         {
            if(!sp.hasBasis()) continue;
            std::vector<Solver::VarStatus> rs(m + 1), cs(n + 1);
            sp.getBasis(rs.data(), cs.data());
            sp.clearBasis();
            if(o.i(1)) sp.setBasis(rs.data(), cs.data());
         }
         else if(kind == "clone")
         {
            Placed cMem(fill);
            SoPlex& c2 = cMem.copy(sp);
            std::ostringstream clog;
            redirect(c2, clog);
            Status st;
            try
            {
               st = c2.optimize();
            }
            catch(const SPxException& x)
            {
               d.push_back({L + "exception", x.what()});
               st = c2.status();
            }
            if(st == Solver::ABORT_TIME) inf.tainted = true;
            inf.solves++;
            if(c2.numIterations() > 0) inf.solvesWithIter++;
            if(c2.numPrecisionBoosts() > 0) inf.boosts++;
            observeSolution(c2, p, d, L + "copy.");
            if(o.i(1))
            {
               sp = c2;
               redirect(sp, log);
               observeSolution(sp, p, d, L + "assigned.");
            }
         }
         else if(kind == "timer") sp.setIntParam(SoPlex::TIMER, (int)(o.i(1) % 3));
         else if(kind == "seed") sp.setRandomSeed((unsigned) o.i(1));
         else if(kind == "verb") sp.setIntParam(SoPlex::VERBOSITY, (int)(o.i(1) % 6));
      }
   }
   catch(const soplex::SPxException& x)
   {
      d.push_back({"exception", x.what()});
   }
   catch(const std::exception& x)
   {
      d.push_back({"std::exception", x.what()});
   }
   d.push_back({"end", "reached"});
}

// warm-up solve used to stagger thread starts: a fixed 3x3 LP with default parameters
static double warmup()
{
   using namespace soplex;
   SoPlex sp;
   std::ostringstream log;
   redirect(sp, log);
   sp.setIntParam(SoPlex::VERBOSITY, SoPlex::VERBOSITY_ERROR);
   sp.setIntParam(SoPlex::OBJSENSE, SoPlex::OBJSENSE_MAXIMIZE);
   static const double A[3][3] = {{2, 1, 1}, {1, 3, 2}, {2, 1, 3}};
   static const double b[3] = {14, 21, 18}, c[3] = {3, 2, 4};
   DSVectorReal e(0);
   for(int j = 0; j < 3; j++) sp.addColReal(LPColReal(c[j], e, 1e100, 0));
   for(int i = 0; i < 3; i++)
   {
      DSVectorReal v(3);
      for(int j = 0; j < 3; j++) v.add(j, A[i][j]);
      sp.addRowReal(LPRowReal(-1e100, v, b[i]));
   }
   sp.optimize();
   return sp.objValueReal();
}

// ------------------------------------------------------------------ case <-> programs
static void putLP(Case& c, int t, const LP& lp)
{
   c.recs.push_back(Rec("plp").add(t).add(lp.m()).add(lp.n()).add(lp.sense).addq(lp.offset));
   for(int j = 0; j < lp.n(); j++) c.recs.push_back(Rec("pc").add(t).add(j).addq(lp.lo[j]).addq(lp.up[j]).addq(lp.obj[j]));
   for(int i = 0; i < lp.m(); i++)
   {
      Rec r("pr");
      r.add(t).add(i).addq(lp.lhs[i]).addq(lp.rhs[i]);
      for(int j = 0; j < lp.n(); j++) if(lp.A[i][j] != 0) r.add(j).addq(lp.A[i][j]);
      c.recs.push_back(r);
   }
}
static bool parseProgs(const Case& c, std::vector<Prog>& ps, int& reps, int& first)
{
   const Rec* h = c.find("threads");
   if(!h) return false;
   int T = (int) h->i(0);
   reps = (int) h->i(1);
   first = (int) h->i(2);
   if(T < 1 || T > 64 || reps < 1 || reps > 20) return false;
   ps.assign(T, Prog());
   for(auto& r : c.recs)
   {
      if(r.tag == "threads" || r.tag == "x") continue;
      int t = (int) r.i(0);
      if(t < 0 || t >= T) return false;
      Prog& p = ps[t];
      if(r.tag == "prog")
      {
         p.mode = (int) r.i(1) & 3;
         p.load = (int) r.i(2) & 1;
         p.verb = (int)(r.i(3) % 6);
         p.timer = (int)(r.i(4) % 3);
         for(size_t k = 5; k < r.n(); k++) p.warm.push_back((int) std::min(10L, std::max(0L, r.i(k))));
      }
      else if(r.tag == "plp")
      {
         p.lp.resize((int) r.i(1), (int) r.i(2));
         p.lp.sense = (int) r.i(3);
         p.lp.offset = r.q(4);
      }
      else if(r.tag == "pc")
      {
         int j = (int) r.i(1);
         if(j < 0 || j >= p.lp.n()) return false;
         p.lp.lo[j] = r.q(2);
         p.lp.up[j] = r.q(3);
         p.lp.obj[j] = r.q(4);
      }
      else if(r.tag == "pr")
      {
         int i = (int) r.i(1);
         if(i < 0 || i >= p.lp.m()) return false;
         p.lp.lhs[i] = r.q(2);
         p.lp.rhs[i] = r.q(3);
         for(size_t k = 4; k + 1 < r.n(); k += 2)
         {
            int j = (int) r.i(k);
            if(j < 0 || j >= p.lp.n()) return false;
            p.lp.A[i][j] = r.q(k + 1);
         }
      }
      else if(r.tag == "pint" || r.tag == "pbool" || r.tag == "pseed")
      {
         Rec q(r.tag);
         for(size_t k = 1; k < r.n(); k++) q.add(r.s(k));
         p.params.push_back(q);
      }
      else if(r.tag == "op")
      {
         Rec q("op");
         for(size_t k = 1; k < r.n(); k++) q.add(r.s(k));
         p.ops.push_back(q);
      }
   }
   if(!hasBoosting)
      for(auto& p : ps) if(p.mode >= M_EXACT_BOOST) p.mode = M_EXACT;
   return true;
}

// ------------------------------------------------------------------ generator
static Q drawVal()
{
   int k = W({60, 25, 15});
   if(k == 0) return Q(R(-9, 9));
   if(k == 1) return Q(R(-40, 40)) / 4;
   return Q(R(-9, 9), R(1, 7));
}
static Q canon(Q q)
{
   q.canonicalize();
   return q;
}
static void genOps(Case& c, int t, int mode, const LP& lp)
{
   int sz = curSize();
   int k = R(1, 3 + sz / 12);
   bool haveSolve = false, modified = false;   // modified: the LP was changed since the last solve
   auto op = [&](const char* kind)
   {
      Rec r("op");
      r.add(t).add(kind);
      return r;
   };
   for(int q = 0; q < k; q++)
   {
      //                solve bnd obj rng addrow addcol delrow delcol query qlp inf setinf stats settings parse io basis clone timer seed verb
      int kind = W({   28,   7,  7,  5,  5,     4,     4,     3,     4,    3,  3,  2,     5,    3,       3,    9, 3,    4,    2,    2,   2});
      if(kind >= 1 && kind <= 7) modified = true;
      switch(kind)
      {
      case 0:
         c.recs.push_back(op("solve"));
         haveSolve = true;
         modified = false;
         break;
      case 1:
      {
         Q a = canon(drawVal()), b = canon(drawVal());
         if(a > b) std::swap(a, b);
         if(P(20)) a = -QINF();
         if(P(20)) b = QINF();
         c.recs.push_back(op("bnd").add(R(0, 30)).addq(a).addq(b));
         break;
      }
      case 2:
         c.recs.push_back(op("obj").add(R(0, 30)).addq(canon(drawVal())));
         break;
      case 3:
      {
         Q a = canon(drawVal() * 3), b = canon(drawVal() * 3);
         if(a > b) std::swap(a, b);
         if(P(30)) a = -QINF();
         else if(P(30)) b = QINF();
         c.recs.push_back(op("rng").add(R(0, 30)).addq(a).addq(b));
         break;
      }
      case 4:
      {
         Q a = canon(drawVal() * 5), b = a + R(0, 9);
         if(P(40)) a = -QINF();
         else if(P(40)) b = QINF();
         Rec r = op("addrow");
         r.addq(a).addq(b);
         int nz = R(1, 4);
         for(int e = 0; e < nz; e++) r.add(R(0, 30)).addq(Q(NZ(9)));
         c.recs.push_back(r);
         break;
      }
      case 5:
      {
         Q a = canon(drawVal()), b = a + R(0, 9);
         if(P(30)) b = QINF();
         Rec r = op("addcol");
         r.addq(a).addq(b).addq(canon(drawVal()));
         int nz = R(0, 4);
         for(int e = 0; e < nz; e++) r.add(R(0, 30)).addq(Q(NZ(9)));
         c.recs.push_back(r);
         break;
      }
      case 6:
         c.recs.push_back(op("delrow").add(R(0, 30)));
         break;
      case 7:
         c.recs.push_back(op("delcol").add(R(0, 30)));
         break;
      case 8:
         c.recs.push_back(op("query"));
         break;
      case 9:
         c.recs.push_back(op("qlp"));
         break;
      case 10:
         c.recs.push_back(op("inf"));
         break;
      case 11:
         c.recs.push_back(op("setinf").add(R(0, 2)));
         break;
      case 12:
         // known finding stats-after-modification: printStatistics -> getDualViolation/getRedCostViolation only test
         // hasBasis() and then index the invalidated solution vectors with the current numRows()/numCols() (out-of-bounds
         // read after addRow/addCol, null dereference when the vectors are empty, garbage in the output).
         // Exclude exactly: statistics between a modification of the LP and the next solve.
         if(modified && knownKey("stats-after-modification"))
         {
            ev().count("excluded_known.stats-after-modification");
            c.recs.push_back(op("query"));
         }
         else c.recs.push_back(op("stats"));
         break;
      case 13:
         c.recs.push_back(op("settings").add(R(0, 1)));
         break;
      case 14:
         c.recs.push_back(op("parse").add(R(0, 9)));
         break;
      case 15:
         c.recs.push_back(op("io").add(R(0, 1)).add(R(1, 4)));
         break;
      case 16:
         c.recs.push_back(op("basis").add(R(0, 1)));
         break;
      case 17:
         // copy construction + solve of the copy, optionally assignment back. Earlier copy/assignment defects found by
         // this operation are fixed (replays/C18/tsan__copy-*, tsan__assign-*).
         // known finding copy-slufactor-overread: SLUFactor::assign (reached from SoPlexBase copy construction /
         // assignment after a solve) memcpy's the row-wise L arrays with the current dimension although the source's
         // arrays stem from an earlier, smaller factorization (heap over-read). Exclude exactly the copy operation.
         if(knownKey("copy-slufactor-overread"))
         {
            ev().count("excluded_known.copy-slufactor-overread");
            c.recs.push_back(op("query"));
         }
         else c.recs.push_back(op("clone").add(R(0, 1)));
         break;
      case 18:
         c.recs.push_back(op("timer").add(R(0, 2)));
         break;
      case 19:
         c.recs.push_back(op("seed").add(R(0, 1000)));
         break;
      default:
         c.recs.push_back(op("verb").add(R(0, 5)));
      }
   }
   if(!haveSolve) c.recs.push_back(op("solve"));
   (void) lp;
}

static void gen(Case& c)
{
   // thread cap: --x maxthreads=N if given; otherwise 16 in the thorough tier and, in the quick tier (16 shards run in
   // parallel), 8 for 85% of the cases and 16 for the rest, so that 2..16 is covered while the machine is not swamped
   int maxT;
   if(opts().x.count("maxthreads")) maxT = (int) std::max(2L, std::min(16L, opts().xi("maxthreads", 16)));
   else if(opts().tier == "thorough") maxT = 16;
   else maxT = P(15) ? 16 : 8;
   int reps = (int) std::max(1L, std::min(10L, opts().xi("reps", 3)));
   int sz = curSize();
   int capT = std::max(2, std::min(maxT, 2 + (maxT * (sz + 20)) / 100));
   int T = R(2, capT);
   int first = P(40) ? 1 : 0;
   c.recs.push_back(Rec("threads").add(T).add(reps).add(first));
   bool thorough = opts().tier == "thorough";
   int maxdim = (int) opts().xi("maxdim", 10);
   for(int t = 0; t < T; t++)
   {
      int mode = W({50, 18, 16, 16});
      if(!hasBoosting && mode >= M_EXACT_BOOST)
      {
         mode = M_EXACT;
         ev().count("boosting_not_compiled_in");
      }
      GenOpt g;
      g.maxM = g.maxN = mode == M_FLOAT ? maxdim : std::min(maxdim, thorough ? 8 : 6);
      g.scaleExp = P(20) ? R(1, 4) : 0;
      int cls = 1 + W({70, 12, 12, 6});
      LP lp;
      Planted pl;
      genPlantedLP(g, cls, lp, pl);
      if(mode != M_FLOAT && P(50))
      {
         // non-dyadic data: exact solves need refinement / reconstruction / boosting instead of a lucky double solve
         static const char* f[] = {"1", "1/3", "2/7", "3/1000", "5/3", "1/1000003"};
         for(int i = 0; i < lp.m(); i++)
         {
            Q s = qparse(f[R(0, 5)]);
            if(isFin(lp.lhs[i])) lp.lhs[i] *= s;
            if(isFin(lp.rhs[i])) lp.rhs[i] *= s;
            for(int j = 0; j < lp.n(); j++) lp.A[i][j] *= s;
         }
      }
      Rec pr("prog");
      pr.add(t).add(mode).add(R(0, 1)).add(W({45, 5, 10, 20, 10, 10})).add(W({60, 20, 20}) == 0 ? 1 : (P(50) ? 0 : 2));
      for(int r = 0; r < reps; r++) pr.add(W({50, 20, 15, 15}));
      c.recs.push_back(pr);
      putLP(c, t, lp);
      Case tmp;
      genCfg(tmp);
      for(auto& r : tmp.recs)
      {
         if(r.tag == "seed")
         {
            c.recs.push_back(Rec("pseed").add(t).add(r.s(0)));
            continue;
         }
         if(mode != M_FLOAT && r.tag == "int")
         {
            // exact solves: algorithmic parameters of the embedded floating-point solver only
            long id = r.i(0);
            using soplex::SoPlex;
            if(id != SoPlex::SIMPLIFIER && id != SoPlex::SCALER && id != SoPlex::REPRESENTATION && id != SoPlex::ALGORITHM &&
                  id != SoPlex::PRICER && id != SoPlex::RATIOTESTER && id != SoPlex::FACTOR_UPDATE_TYPE) continue;
         }
         if(mode != M_FLOAT && r.tag == "bool") continue;
         c.recs.push_back(Rec(r.tag == "int" ? "pint" : "pbool").add(t).add(r.s(0)).add(r.s(1)));
      }
      if(mode >= M_EXACT_BOOST)
      {
         static const int lim[] = {100, 150, 250};
         c.recs.push_back(Rec("pint").add(t).add((int) soplex::SoPlex::MULTIPRECISION_LIMIT).add(lim[R(0, 2)]));
         if(mode == M_PURE_BOOST && P(50))
         {
            // without reconstruction / rational factorization the boosting loop runs up to the digit limit
            c.recs.push_back(Rec("pbool").add(t).add((int) soplex::SoPlex::RATREC).add(0));
            c.recs.push_back(Rec("pbool").add(t).add((int) soplex::SoPlex::RATFAC).add(0));
         }
         if(P(30)) c.recs.push_back(Rec("pbool").add(t).add((int) soplex::SoPlex::BOOSTED_WARM_START).add(R(0, 1)));
      }
      genOps(c, t, mode, lp);
   }
   // known finding mps-strtok: MPSInput::readLine tokenises with strtok(); two threads reading MPS files at the same
   // time corrupt each other's lines. Exclude exactly "more than one thread program reads an MPS file": the MPS io
   // operations of all but the first such program become LP-format io operations.
   if(knownKey("mps-strtok"))
   {
      int mpsProg = -1;
      for(auto& r : c.recs)
         if(r.tag == "op" && r.s(1) == "io" && r.i(2) == 1)
         {
            if(mpsProg < 0) mpsProg = (int) r.i(0);
            else if(r.i(0) != mpsProg)
            {
               r.a[2] = "0";
               ev().count("excluded_known.mps-strtok");
            }
         }
   }
}

// ------------------------------------------------------------------ the case, executed inside the child process
struct Barrier
{
   std::atomic<int> arrived{0};
   int n;
   explicit Barrier(int n_) : n(n_) {}
   void wait()
   {
      arrived.fetch_add(1, std::memory_order_acq_rel);
      while(arrived.load(std::memory_order_acquire) < n) std::this_thread::yield();
   }
};

static std::string shortv(const std::string& s)
{
   return s.size() > 70 ? s.substr(0, 70) + "..." : s;
}
static std::string firstDiff(const Digest& a, const Digest& b, const char* na, const char* nb)
{
   size_t k = 0;
   while(k < a.size() && k < b.size() && a[k] == b[k]) k++;
   if(k == a.size() && k == b.size()) return "";
   std::string la = k < a.size() ? a[k].first : "<end>", lb = k < b.size() ? b[k].first : "<end>";
   std::string va = k < a.size() ? a[k].second : "", vb = k < b.size() ? b[k].second : "";
   // label without the operation index (stable failure classes)
   std::string lab = la;
   size_t c = lab.find(':');
   if(c != std::string::npos) lab = lab.substr(c + 1);
   return "at '" + lab + "': " + na + " " + la + "=" + shortv(va) + " | " + nb + " " + lb + "=" + shortv(vb);
}

static Verdict runCase(const Case& c)
{
   Verdict v;
   Evidence& e = ev();
   std::vector<Prog> ps;
   int reps = 1, first = 0;
   if(!parseProgs(c, ps, reps, first))
   {
      v.fail("case file without valid thread programs");
      return v;
   }
   int T = (int) ps.size();
   // replays repeat the concurrent phase more often (schedule-dependent findings must reproduce three times in a row)
   if(opts().mode == "replay") reps *= (int) std::max(1L, std::min(20L, opts().xi("replaymult", 4)));
   (void) QINF();
   std::vector<Digest> seqA(T), seqB(T);
   std::vector<Info> infA(T), infB(T);
   std::vector<std::vector<Digest>> conc(reps, std::vector<Digest>(T));
   std::vector<std::vector<Info>> infC(reps, std::vector<Info>(T));
   auto sequential = [&](std::vector<Digest>& d, std::vector<Info>& inf, int fill)
   {
      for(int t = 0; t < T; t++) runProg(ps[t], t, fill, d[t], inf[t]);
   };
   auto dump = [&]()   // debugging aid (--x dump=1): the digests of the first solo run
   {
      if(opts().xi("dump", 0))
         for(int t = 0; t < T; t++)
            for(auto& kv : seqA[t]) fprintf(stderr, "t%d %s %s = %s\n", t, modeName(ps[t].mode), kv.first.c_str(), shortv(kv.second).c_str());
   };
   if(!first)
   {
      sequential(seqA, infA, 0x00);
      dump();
   }
   std::vector<double> sink(T, 0.0);
   for(int r = 0; r < reps; r++)
   {
      Barrier bar(T);
      std::vector<std::thread> th;
      for(int t = 0; t < T; t++)
         th.emplace_back([&, t, r]()
      {
         bar.wait();
         int w = ps[t].warm.empty() ? 0 : ps[t].warm[r % (int) ps[t].warm.size()];
         for(int k = 0; k < w; k++) sink[t] += warmup();
         runProg(ps[t], t, 0xA5, conc[r][t], infC[r][t]);
      });
      for(auto& x : th) x.join();
   }
   if(first)
   {
      sequential(seqA, infA, 0x00);
      dump();
      sequential(seqB, infB, 0x5A);
   }
   else sequential(seqB, infB, 0x5A);

   // evidence (main thread only)
   e.count(std::string("flavour.") + (isTsan ? "tsan" : "plain"));
   e.count("threads." + std::to_string(T));
   e.count(first ? "first_construction_concurrent" : "sequential_reference_first");
   e.count(std::string("mpfr_tls.") + (mpfr_buildopt_tls_p() ? "yes" : "no"));
   for(int t = 0; t < T; t++)
   {
      e.count(std::string("mode.") + modeName(ps[t].mode));
      for(auto& kv : infA[t].cnt) e.count(kv.first, kv.second);
      if(infA[t].boosts) e.count("program_with_precision_boosts");
      if(infA[t].refinements) e.count("program_with_refinements");
      if(infA[t].ioReads) e.count("program_with_file_reads");
      for(auto& r : ps[t].params)
         if(r.tag == "pint" && (r.i(0) == soplex::SoPlex::SCALER || r.i(0) == soplex::SoPlex::SIMPLIFIER || r.i(0) == soplex::SoPlex::PRICER || r.i(0) == soplex::SoPlex::RATIOTESTER))
            e.count("cfg.int" + r.s(0) + "=" + r.s(1));
   }
   // oracle
   int comparable = 0, active = 0;
   for(int t = 0; t < T; t++)
   {
      bool tainted = infA[t].tainted || infB[t].tainted;
      for(int r = 0; r < reps; r++) tainted = tainted || infC[r][t].tainted;
      if(tainted)
      {
         e.count("inconclusive.time_limit_hit");
         continue;
      }
      std::string dd = firstDiff(seqA[t], seqB[t], "first", "second");
      // known finding boost-precision-outlives-object: the multiprecision default precision is per thread since fix 485f21d,
      // but it outlives the SoPlex object that raised it: objects created later in the same thread (members are constructed
      // before the constructor body resets the precision) start from the boosted precision, so the second identical
      // sequential run of a program that boosted differs from the first (193 vs 254 iterations in a cloned object)
      if(!dd.empty() && (infA[t].boosts > 0 || infB[t].boosts > 0) && knownKey("boost-precision-outlives-object"))
      {
         e.count("excluded_known.boost-precision-outlives-object");
         continue;
      }
      if(!dd.empty())
      {
         v.fail(std::string("sequential run not reproducible (") + modeName(ps[t].mode) + ") " + dd);
         return v;
      }
      comparable++;
      // known finding boost-global-precision: a solve that boosts its precision reads the process-wide default
      // precision, which every SoPlex constructor / exact solve / boost in another thread overwrites. Exactly the
      // programs that performed >= 1 precision boost are not compared (they still run concurrently under TSan).
      if(infA[t].boosts > 0 && (knownKey("boost-global-precision") || knownKey("boost-precision-outlives-object")))
      {
         e.count("excluded_known.boost-global-precision");
         continue;
      }
      bool act = true;
      for(int r = 0; r < reps; r++) act = act && infC[r][t].solvesWithIter >= 1;
      if(act) active++;
      for(int r = 0; r < reps; r++)
      {
         dd = firstDiff(conc[r][t], seqA[t], "concurrent", "alone");
         if(!dd.empty())
         {
            v.fail(std::string("thread result differs from the run alone (") + modeName(ps[t].mode) + ") " + dd);
            return v;
         }
      }
   }
   v.nontrivial = T >= 2 && active >= 2 && comparable == T;
   if(v.nontrivial) e.count("nontrivial.threads_active", active);
   return v;
}

// ------------------------------------------------------------------ parent side: fork, capture, judge
static std::string readFd(int fd, size_t cap)
{
   std::string s;
   char buf[65536];
   lseek(fd, 0, SEEK_SET);
   ssize_t k;
   while(s.size() < cap && (k = read(fd, buf, sizeof buf)) > 0) s.append(buf, (size_t) k);
   return s;
}
static void rmTree(const std::string& d)
{
   DIR* h = opendir(d.c_str());
   if(h)
   {
      while(struct dirent* de = readdir(h))
      {
         std::string n = de->d_name;
         if(n != "." && n != "..") unlink((d + "/" + n).c_str());
      }
      closedir(h);
   }
   rmdir(d.c_str());
}
// stable one-line signature of the first ThreadSanitizer report in the captured stderr text:
//   "ThreadSanitizer data race: <function of access 1> vs <function of access 2>; <location>"
static std::string frameFunction(const std::string& block)
{
   std::istringstream is(block);
   std::string line, firstWithFile;
   while(std::getline(is, line))
   {
      size_t h = line.find('#');
      if(h == std::string::npos || line.find_first_not_of(' ') != h) continue;
      size_t sp = line.find(' ', h);
      if(sp == std::string::npos) continue;
      size_t path = line.find(" /", sp);
      if(path == std::string::npos) continue;
      std::string raw = line.substr(sp + 1, path - sp - 1), fn;
      if(raw.compare(0, 2, "0x") == 0)   // ASan/UBSan frame format: "#0 0xADDR in function file:line"
      {
         size_t in = raw.find(" in ");
         if(in != std::string::npos) raw = raw.substr(in + 4);
      }
      int depth = 0;
      for(char ch : raw)   // drop template argument lists, then the parameter list
      {
         if(ch == '<') depth++;
         else if(ch == '>') depth = depth > 0 ? depth - 1 : 0;
         else if(depth == 0) fn += ch;
      }
      size_t par = fn.find('(');
      if(par != std::string::npos && par > 0) fn = fn.substr(0, par);
      if(fn.compare(0, 8, "soplex::") == 0) return fn;
      if(firstWithFile.empty()) firstWithFile = fn;
   }
   return firstWithFile.empty() ? std::string("?") : firstWithFile;
}
static std::string tsanSignature(const std::string& t)
{
   size_t w = t.find("WARNING: ThreadSanitizer:");
   if(w == std::string::npos)
   {
      w = t.find("ERROR: ThreadSanitizer:");
      if(w == std::string::npos) w = t.find("ERROR: AddressSanitizer:");   // asan:c18 built by hand
      if(w == std::string::npos)
      {
         size_t u = t.find("runtime error:");
         if(u == std::string::npos) return "";
         size_t ue = t.find('\n', u);
         return "UndefinedBehaviorSanitizer: " + shortv(t.substr(u + 15, ue == std::string::npos ? std::string::npos : ue - (u + 15))) + " in " + frameFunction(t.substr(u));
      }
      size_t eol = t.find('\n', w);
      std::string l = t.substr(w + 7, eol == std::string::npos ? std::string::npos : eol - (w + 7));
      size_t on = l.find(" on unknown address");
      if(on == std::string::npos) on = l.find(" on address");
      if(on != std::string::npos) l = l.substr(0, on);
      return l + " in " + frameFunction(t.substr(w));
   }
   size_t eol = t.find('\n', w);
   std::string kind = t.substr(w + 26, eol == std::string::npos ? std::string::npos : eol - (w + 26));
   size_t par = kind.find(" (pid");
   if(par != std::string::npos) kind = kind.substr(0, par);
   size_t end = t.find("==================", w);
   std::string rep = t.substr(w, end == std::string::npos ? std::string::npos : end - w);
   std::string loc;
   size_t l = rep.find("Location is ");
   if(l != std::string::npos)
   {
      size_t le = rep.find('\n', l);
      loc = rep.substr(l + 12, le - (l + 12));
      size_t of = loc.find(" of size");
      if(of != std::string::npos) loc = loc.substr(0, of);
      size_t at = loc.find(" at 0x");
      if(at != std::string::npos) loc = loc.substr(0, at);
      if(loc.compare(0, 15, "stack of thread") == 0) loc = "stack of another thread";
   }
   // access blocks are separated by empty lines: block 0 = this access, block 1 = previous access
   std::vector<std::string> blocks;
   {
      size_t pos = 0;
      while(pos < rep.size() && blocks.size() < 2)
      {
         size_t e2 = rep.find("\n\n", pos);
         blocks.push_back(rep.substr(pos, e2 == std::string::npos ? std::string::npos : e2 - pos));
         if(e2 == std::string::npos) break;
         pos = e2 + 2;
      }
   }
   std::string f1 = blocks.size() > 0 ? frameFunction(blocks[0]) : "?", f2 = blocks.size() > 1 ? frameFunction(blocks[1]) : "?";
   return "ThreadSanitizer " + kind + ": " + f1 + " vs " + f2 + (loc.empty() ? "" : "; " + loc);
}

static Verdict run(const Case& c)
{
   static int serial = 0;
   serial++;
   // shrinking budget: cases are large (hundreds of draws) and every attempt costs a process with up to 16 threads;
   // after the budget every further shrink candidate is answered "passes", so the smallest failing case found so far
   // stays in failing.case and rapidcheck terminates quickly
   if(ev().failed && ev().shrinkRuns >= opts().xi("shrinkbudget", 120)) return Verdict();
   bool gen = opts().mode == "gen";
   workDir = (gen ? opts().dir : std::string("/var/tmp")) + "/c18w-" + std::to_string((long) getpid()) + "-" + std::to_string(serial);
   mkdir(workDir.c_str(), 0777);
   Verdict v;
   if(opts().xi("fork", 1) == 0)
   {
      v = runCase(c);
      rmTree(workDir);
      return v;
   }
   int pfd[2];
   if(pipe(pfd) != 0)
   {
      v.fail("harness: pipe failed");
      return v;
   }
   int efd = (int) syscall(SYS_memfd_create, "c18-stderr", 0);
   fflush(stdout);
   fflush(stderr);
   pid_t pid = fork();
   if(pid == 0)
   {
      close(pfd[0]);
      if(efd >= 0) dup2(efd, 2);
      ev().cnt.clear();
      Verdict cv = runCase(c);
      std::ostringstream os;
      os << "V " << (cv.ok ? 1 : 0) << " " << (cv.nontrivial ? 1 : 0) << "\n";
      std::string m = cv.msg;
      for(auto& ch : m) if(ch == '\n') ch = ' ';
      os << "M " << m << "\n";
      for(auto& kv : ev().cnt) os << "C " << kv.second << " " << kv.first << "\n";
      os << "E\n";
      std::string s = os.str();
      size_t off = 0;
      while(off < s.size())
      {
         ssize_t k = write(pfd[1], s.data() + off, s.size() - off);
         if(k <= 0) break;
         off += (size_t) k;
      }
      close(pfd[1]);
      _exit(0);
   }
   close(pfd[1]);
   if(pid < 0)
   {
      close(pfd[0]);
      v.fail("harness: fork failed");
      return v;
   }
   // watchdog (wall clock): a case that does not finish is inconclusive, never a failure
   long limit = opts().xi("casetimeout", 600);
   std::string res;
   bool timedOut = false;
   {
      fcntl(pfd[0], F_SETFL, O_NONBLOCK);
      char buf[8192];
      long waitedMs = 0;
      for(;;)
      {
         ssize_t k = read(pfd[0], buf, sizeof buf);
         if(k > 0)
         {
            res.append(buf, (size_t) k);
            continue;
         }
         if(k == 0) break;
         usleep(2000);
         waitedMs += 2;
         if(waitedMs > limit * 1000)
         {
            timedOut = true;
            kill(pid, SIGKILL);
            break;
         }
      }
   }
   close(pfd[0]);
   int status = 0;
   waitpid(pid, &status, 0);
   std::string err = efd >= 0 ? readFd(efd, 4u << 20) : std::string();
   if(efd >= 0) close(efd);
   if(!err.empty())
   {
      fflush(stderr);
      std::string tail = err.size() > 60000 ? err.substr(0, 60000) + "\n...[truncated]\n" : err;
      ssize_t ign = write(2, tail.data(), tail.size());
      (void) ign;
   }
   rmTree(workDir);
   if(timedOut)
   {
      ev().count("inconclusive.case_watchdog");
      return v;
   }
   // child's verdict and counters
   bool complete = false, cok = true, cnt = false;
   std::string cmsg;
   {
      std::istringstream is(res);
      std::string line;
      while(std::getline(is, line))
      {
         if(line.compare(0, 2, "V ") == 0)
         {
            cok = line[2] == '1';
            cnt = line.size() > 4 && line[4] == '1';
         }
         else if(line.compare(0, 2, "M ") == 0) cmsg = line.substr(2);
         else if(line.compare(0, 2, "C ") == 0)
         {
            size_t sp = line.find(' ', 2);
            if(sp != std::string::npos) ev().count(line.substr(sp + 1), atol(line.substr(2, sp - 2).c_str()));
         }
         else if(line == "E") complete = true;
      }
   }
   std::string sig = tsanSignature(err);
   if(!sig.empty())
   {
      ev().count("tsan_reports");
      // known finding exact-leave-copvec-delta-oob: a SEQUENTIAL out-of-bounds read in SPxSolverBase::getLeaveVals2
      // (theCoPvec->delta()[idx] with idx == dimension, inside the float solves of an exact solve) that the sanitizers see as a
      // use-after-free / overflow next to another thread's heap block; signature: the report names getLeaveVals2
      if(knownKey("exact-leave-copvec-delta-oob") && sig.find("getLeaveVals2") != std::string::npos)
      {
         ev().count("excluded_known.exact-leave-copvec-delta-oob");
         return v;
      }
      v.fail(sig);
      return v;
   }
   if(WIFSIGNALED(status))
   {
      v.fail("concurrent workload crashed: signal " + std::to_string(WTERMSIG(status)) + (complete ? " (after the verdict)" : ""));
      return v;
   }
   if(WIFEXITED(status) && WEXITSTATUS(status) != 0)
   {
      v.fail("concurrent workload: child process exit code " + std::to_string(WEXITSTATUS(status)) + (WEXITSTATUS(status) == 66 ? " (ThreadSanitizer)" : ""));
      return v;
   }
   if(!complete)
   {
      v.fail("concurrent workload: child process ended without a verdict");
      return v;
   }
   if(!cok) v.fail(cmsg);
   v.nontrivial = cnt;
   return v;
}

int main(int argc, char** argv)
{
   int rc = vfMain(argc, argv, "C18", gen, run);
   fflush(stdout);
   fflush(stderr);
   // the parent never runs threads or SoPlex code; leave without the sanitizer's exit-code override
   _exit(rc);
}
