#!/usr/bin/env python3
"""mkcorpus.py - regenerates the committed seed corpora fuzz/corpus/{fuzz_readers,fuzz_soplex}/ of property C13.

A corpus unit = selector byte + file content (see the header comments of harness/fuzz_readers.cpp and
harness/fuzz_soplex.cpp for the meaning of the selector bits). The texts below are the source of truth:
one 3x3 LP written in every dialect feature of the LP and MPS readers, a basis file and a settings file for it,
and the shipped instance afiro.mps.     usage: python3 fuzz/mkcorpus.py [/repo]
"""
import hashlib
import os
import sys

HERE = os.path.dirname(os.path.abspath(__file__))
REPO = sys.argv[1] if len(sys.argv) > 1 else "/repo"

LP = {}
LP["basic"] = """Minimize
 obj: 2 x + 3 y + 4 z
Subject To
 c1: x + y + z >= 6
 c2: x - y <= 2
 c3: y + z <= 10
Bounds
 0 <= x <= 4
End
"""
LP["max_eq_free"] = """\\ comment line
MAXIMIZE
 cost: - x - 2 y + 0.5 z
SUBJECT TO
 r1: x + y + z = 6
 r2: x - y =< 2
 r3: 3 y + z => 1
BOUNDS
 x free
 -inf <= y <= 8
 z = 1.5
END
"""
LP["range"] = """min
 x + y + z
st
 -1 <= x + y <= 4
 c2: x - z >= -2
 y + z >= 1
bounds
 x <= 3
 y >= -5
 -infinity <= z <= +infinity
end
"""
LP["generals_exp"] = """Minimize
 obj: 1.5e+0 x + 2.5E-1 y - 1e1 z + 0 w
Such That
 c1: 1e0 x + .5 y + 2. z >= -1e-1
 c2: - x + + y - - z <= 1.0e2
 c3: x + y
   + z + w <= 7
Bounds
 -2 <= x <= 2
 z <= 4
 w free
Generals
 x
 y
Binaries
 z
End
"""
LP["integers_lazy_dupidx"] = """max obj: x + y
s.t.
 a: x + x + y <= 4
 b: 2 y - y + z >= 0
lazy constraints
 c: x + y + z <= 9
bounds
 1 <= x
 y >= 0
 -1 <= z <= 1
integers
 x z
bin
 y
end
"""
LP["no_end_rowless"] = """Minimize
 x + 2 y
Subject To
 c1: x + y >= 1
 c2: <= 5
 c3: x - y = 0
"""
LP["rational"] = """Minimize
 obj: 1/3 x + 2/7 y + 1.25 z
Subject To
 c1: 1/2 x + 3/4 y + z >= 11/10
 c2: x - 2/3 y <= 2
 c3: y + 1e-3 z <= 10
Bounds
 0 <= x <= 9/2
End
"""

MPS = {}
MPS["basic"] = """NAME          good
ROWS
 N  obj
 G  c1
 L  c2
 L  c3
COLUMNS
    x         obj                  2   c1                   1
    x         c2                   1
    y         obj                  3   c1                   1
    y         c2                  -1   c3                   1
    z         obj                  4   c1                   1
    z         c3                   1
RHS
    RHS       c1                   6   c2                   2
    RHS       c3                  10
BOUNDS
 UP BND       x                    4
ENDATA
"""
MPS["ranges_offset_markers"] = """* comment
NAME          feat
OBJSENSE
    MAX
ROWS
 N  cost
 E  r1
 G  r2
 L  r3
 N  free2
COLUMNS
    MARKER                 'MARKER'                 'INTORG'
    x         cost                 1   r1                   1
    x         r2                   1
    MARKER                 'MARKER'                 'INTEND'
    y         cost                -2   r1                   1
    y         r2                  -1   r3                   3
    z         cost               0.5   r1                   1
    z         r3                   1   free2                1
RHS
    RHS       cost                -7   r1                   6
    RHS       r2                  -2   r3                  12
RANGES
    RNG       r1                  -3   r2                   4
    RNG       r3                 2.5
BOUNDS
 MI BND       x
 PL BND       x
 BV BND       y
 FR BND       z
 FX BND       z                  1.5
 LO BND       x                   -4
 UP BND       x                    4
 LI BND       y                    0
 UI BND       y                    3
ENDATA
"""
MPS["free_format_objsense_objname"] = """NAME free
OBJSENSE
 MIN
OBJNAME
 obj
ROWS
 N obj
 G c1
 L c2
 E c3
COLUMNS
 x obj 2 c1 1
 x c2 1
 y obj 3 c1 1
 y c2 -1 c3 1
 z obj 4 c1 1
 z c3 1e0
RHS
 rhs c1 6 c2 2
 rhs c3 1.0E+1
RANGES
 rng c1 2
BOUNDS
 UP bnd x 4
 MI bnd y
 UP bnd y +inf
 LO bnd z -Inf
ENDATA
"""
MPS["negative_up_no_rhsname"] = """NAME          neg
ROWS
 N  obj
 L  c1
 G  c2
 E  c3
COLUMNS
    x         obj                  1   c1                   1
    x         c3                   1
    y         obj                  1   c2                   1
    y         c3                  -1
    z         obj                 -1   c1                   1
RHS
    c1                   4
    c2                  -3
BOUNDS
 UP BND       x                   -1
 UP           y                    5
 BV BND       z
ENDATA
"""
MPS["rational"] = """NAME rat
ROWS
 N obj
 G c1
 L c2
 L c3
COLUMNS
 x obj 1/3 c1 1/2
 x c2 1
 y obj 2/7 c1 3/4
 y c2 -2/3 c3 1
 z obj 1.25 c1 1
 z c3 1e-3
RHS
 rhs c1 11/10 c2 2
 rhs c3 10
BOUNDS
 UP bnd x 9/2
ENDATA
"""

BAS = {}
BAS["good"] = """NAME          good.bas
 XU x         c1
 XL y         c2
 UL x
 LL z
ENDATA
"""
BAS["default_names"] = """NAME  soplex.bas  Rows 3 Cols 3
 XU x0        C0
 XL x0x1      C0C1
 LL x0x1x2
ENDATA
"""
BAS["allbasic"] = """NAME b
 XU x c1
 XU y c2
 XL z c3
ENDATA
"""

SET = {}
SET["mixed"] = """# SoPlex version 8.0.0
bool:lifting = true
bool:rowboundflips = false
int:objsense = -1
int:representation = 2
int:algorithm = 0
int:factor_update_max = 5
int:iterlimit = 30
int:simplifier = 0
int:scaler = 3
int:pricer = 5
int:ratiotester = 1
int:solvemode = 0
real:feastol = 1e-7
real:opttol = 1.0e-06
real:timelimit = 5
real:infty = 1e+100
real:sparsity_threshold = 0.5
uint:random_seed = 42
"""
SET["spaces"] = """
   # indented comment
bool : eqtrans = TRUE   # trailing comment
int	:	starter	=	1
real : epsilon_zero=1e-16
int:verbosity = 0
int:readmode = 1
int:syncmode = 1
int:checkmode = 2
"""
# over-long lines (the quantifier names them; libFuzzer's length control does not reach 8 KB within a quick run):
# a constraint line of 9200 characters made of short tokens, and an MPS line beyond the 255 characters of MPSInput
LONG = {}
LONG["lp_line_9200"] = "min\n x\nst\n c1: " + "+1 x " * 2300 + " >= 1\n c2: x <= 5\nend\n"
LONG["lp_comment_9000"] = "min\n x \\" + "c" * 9000 + "\nst\n c1: x >= 1\nend\n"
LONG["mps_line_300"] = "NAME\nROWS\n N  obj\n G  " + "r" * 300 + "\nCOLUMNS\nRHS\nENDATA\n"
SETSTR = ["int:iterlimit = 20", "bool:fullperturbation=true", "real:feastol = 1e-9", "uint:random_seed = 7",
          "  int : scaler = 0 # c", "real:objlimit_lower = -1e+100"]


def put(d, data):
    os.makedirs(d, exist_ok=True)
    name = hashlib.sha1(data).hexdigest()[:16]
    with open(os.path.join(d, name), "wb") as fh:
        fh.write(data)


def main():
    r = os.path.join(HERE, "corpus", "fuzz_readers")
    s = os.path.join(HERE, "corpus", "fuzz_soplex")
    for d in (r, s):
        if os.path.isdir(d):
            for f in os.listdir(d):
                os.unlink(os.path.join(d, f))
    afiro = open(os.path.join(REPO, "check", "instances", "afiro.mps"), "rb").read()
    # T1: bit0 mps, bit1 rational, bit2 no name sets, bit3 no intvars, bit4 autodetect
    for k, t in LP.items():
        b = t.encode()
        if k != "rational":          # a/b literals are a syntax error for the double reader
            put(r, bytes([0]) + b)
        put(r, bytes([2]) + b)
    put(r, bytes([4 | 8]) + LP["basic"].encode())
    put(r, bytes([16]) + LP["generals_exp"].encode())
    for k, t in MPS.items():
        b = t.encode()
        if k != "rational":
            put(r, bytes([1]) + b)
        put(r, bytes([3]) + b)
    put(r, bytes([1 | 4 | 8]) + MPS["basic"].encode())
    put(r, bytes([2 | 16]) + MPS["ranges_offset_markers"].encode())
    put(r, bytes([1]) + afiro)
    put(r, bytes([3]) + afiro)
    put(r, bytes([0]) + LONG["lp_line_9200"].encode())
    put(r, bytes([2]) + LONG["lp_line_9200"].encode())
    put(r, bytes([0]) + LONG["lp_comment_9000"].encode())
    put(r, bytes([1]) + LONG["mps_line_300"].encode())
    # T2: bits0-2 reader (0 LP, 1 MPS, 2 BAS, 3 settings file, 4 settings string), bit3 rational read mode,
    #     bit4 syncmode auto / named basis, bits5-7 == 7: gz
    for k, t in LP.items():
        if k != "rational":
            put(s, bytes([0]) + t.encode())
    put(s, bytes([0 | 8]) + LP["rational"].encode())
    put(s, bytes([0 | 8 | 16]) + LP["generals_exp"].encode())
    put(s, bytes([0 | 0xE0]) + LP["max_eq_free"].encode())
    for k, t in MPS.items():
        if k != "rational":
            put(s, bytes([1]) + t.encode())
    put(s, bytes([1 | 8]) + MPS["rational"].encode())
    put(s, bytes([1 | 8 | 16]) + MPS["ranges_offset_markers"].encode())
    put(s, bytes([1 | 0xE0]) + MPS["free_format_objsense_objname"].encode())
    put(s, bytes([1]) + afiro)
    put(s, bytes([1 | 8 | 16]) + afiro)
    put(s, bytes([0]) + LONG["lp_line_9200"].encode())
    put(s, bytes([0 | 8]) + LONG["lp_comment_9000"].encode())
    put(s, bytes([1]) + LONG["mps_line_300"].encode())
    put(s, bytes([3]) + ("int:iterlimit = 10" + " " * 600 + "\nbool:lifting = true\n").encode())
    for k, t in BAS.items():
        put(s, bytes([2]) + t.encode())
        put(s, bytes([2 | 16]) + t.encode())
    put(s, bytes([2 | 16 | 0xE0]) + BAS["good"].encode())
    for k, t in SET.items():
        put(s, bytes([3]) + t.encode())
    put(s, bytes([3 | 8 | 0xE0]) + SET["mixed"].encode())
    for t in SETSTR:
        put(s, bytes([4]) + t.encode())
    print(len(os.listdir(r)), "units in", r)
    print(len(os.listdir(s)), "units in", s)


if __name__ == "__main__":
    main()
